# gen_core.py -- script generators for the actor-core engine (format: DESIGN 13).
# A script = module table + callback tables + procedures; procedure 1 is the program,
# procedure 0 the empty one.  Every choice derives from the per-case RNG.
import random

TMR_KEYS = [10000000000 + 7 * i for i in range(1, 6)]      # user timers (never collide with internal timers)
BATCH_NS = [5000000000 + 3 * i for i in range(1, 4)]
SIGS = [10, 12, 34, 35]
TOPICS = [1, 2, 3, 4]
PATTERNS = [500, 501, 502, 503, 504, 507]
SYS_TOPICS = [1001, 1002, 1004, 1005]

class Params:
    """slots / regex table printed by the C driver (--params): computed with the REAL hash and regexec"""
    def __init__(self, text):
        self.mslot, self.tslot, self.rem = {}, {}, {}
        for l in text.splitlines():
            t = l.split()
            if not t: continue
            if t[0] == 'mslot': self.mslot[int(t[1])] = int(t[2])
            elif t[0] == 'tslot': self.tslot[int(t[1])] = int(t[2])
            elif t[0] == 'rem': self.rem[(int(t[1]), int(t[2]))] = int(t[3])
        # module names with pairwise distinct, non adjacent-colliding home slots
        seen, self.names = set(), []
        for n in sorted(self.mslot):
            if self.mslot[n] not in seen:
                seen.add(self.mslot[n]); self.names.append(n)

FOREIGN_OK = {'start', 'stop', 'pause', 'resume', 'dereg', 'state', 'sub', 'unsub', 'tell', 'publish', 'broadcast', 'pill', 'become', 'unbecome',
              'unstash', 'stash', 'batchsize', 'batchtimeout', 'tb', 'srcreg', 'srcdereg', 'srclen', 'ctxlen', 'stats', 'finalize', 'quit', 'live'}

def strip_foreign(c):
    t = c.split()
    return t[2:] if t and t[0] == 'foreign' else t

class Gen:
    def __init__(self, rng, P, focus=None, nmods=None):
        self.r, self.P, self.focus = rng, P, focus or set()
        self.nm = nmods or rng.randint(2, 5)
        self.procs = {0: []}
        self.cbs = []
        self.data = 0
        self.next_proc = 2
        self.mods = []
        self.sig_owner = {}
        self.fresh_fd = 12
        names = rng.sample(P.names[:40], self.nm)
        if 'names' in self.focus and self.nm >= 2 and rng.random() < 0.7:
            names[1] = names[0]                                  # two modules, one name
        for i in range(self.nm):
            f = lambda p: 1 if rng.random() < p else 0
            self.mods.append(dict(name=names[i], slot=P.mslot[names[i]],
                                  replace=f(0.3 if 'names' in self.focus else 0.1), persist=f(0.25 if 'names' in self.focus else 0.08),
                                  denyctx=f(0.2 if 'deny' in self.focus else 0.04), denypub=f(0.3 if 'deny' in self.focus else 0.05),
                                  denysub=f(0.3 if 'deny' in self.focus else 0.05),
                                  heval=f(0.5), hstart=f(0.6), hstop=f(0.6)))
    def newdata(self):
        self.data += 1; return self.data
    def m(self): return self.r.randrange(self.nm)
    def topic(self):
        return self.r.choice(TOPICS + TOPICS + PATTERNS)
    # ---- one random API call (as text)
    def call(self, depth, in_evt, me=None):
        r = self.r; x = r.random(); F = self.focus
        m = me if (me is not None and r.random() < 0.65) else self.m()
        w = lambda tag, base: base * (4 if tag in F else 1)
        table = [
            (w('life', 6), lambda: r.choice(['start', 'stop', 'pause', 'resume']) + ' %d' % m),
            (w('life', 2), lambda: 'dereg %d' % m),
            (2, lambda: 'state %d' % m),
            (w('ps', 5), lambda: 'sub %d %d %d %d %d' % (m, r.choice(TOPICS + PATTERNS + SYS_TOPICS), r.choice([0, 0, 1, 2, 3, 3, 4]), 1 if r.random() < 0.15 else 0, r.randint(1, 99))),
            (w('ps', 2), lambda: 'unsub %d %d' % (m, self.topic())),
            (w('ps', 5), lambda: 'tell %d %d %d %d' % (m, self.m(), self.newdata(), 1 if r.random() < 0.4 else 0)),
            (w('ps', 5), lambda: 'publish %d %d %d %d' % (m, r.choice(TOPICS + [1004]), self.newdata(), 1 if r.random() < 0.4 else 0)),
            (w('ps', 3), lambda: 'broadcast %d %d %d' % (m, self.newdata(), 1 if r.random() < 0.4 else 0)),
            (w('pill', 2), lambda: 'pill %d %d' % (m, self.m())),
            (w('become', 3), lambda: 'become %d %d' % (m, r.randint(1, 3))),
            (w('become', 2), lambda: 'unbecome %d' % m),
            (w('stash', 3), lambda: 'unstash %d %d' % (m, r.randint(0, 4))),
            (w('batch', 3), lambda: 'batchsize %d %d' % (m, r.choice([0, 1, 2, 3, 5]))),
            (w('batch', 2), lambda: 'batchtimeout %d %d' % (m, r.choice([0] + BATCH_NS))),
            (w('tb', 2), lambda: 'tb %d %d %d' % (m, r.choice([0, 1, 2, 5, 1000]), r.choice([0, 1, 2, 3, 10]))),
            (w('src', 4), lambda: self.srcreg(m)),
            (w('src', 3), lambda: self.srcdereg(m)),
            (w('src', 2), lambda: 'srclen %d %d' % (m, r.choice([0, 1, 2, 3, 4, 7, 8, 8]))),
            (w('ctx', 1), lambda: r.choice(['ctxlen', 'stats', 'finalize', 'quit %d' % r.randint(0, 9), 'ctxreg 0', 'ctxdereg', 'settick %d' % r.choice([0, 7000000000])]
                                           + (['dispatch'] if me is None and depth == 0 else []))),   # no re-entrant dispatch from callbacks (outside the documented use)
            (w('ctx', 1) - 1 + (2 if 'ctx' in F and me is not None else 0), lambda: 'ctxreg %d' % r.randint(0, 1)),   # a second context, also from inside (deny-ctx) callbacks
            (1, lambda: 'ref %d' % m), (1, lambda: 'unref %d' % m),
            (w('errno', 1), lambda: 'errno %d' % r.choice([2, 4, 11, 13, 22, 32])),
            (1, lambda: 'live'),
        ]
        if in_evt:
            table += [(w('stash', 5), lambda: 'stash %d %d' % (m, r.randint(0, 2))),
                      (1, lambda: 'evtref %d' % r.randint(0, 1))]
        tot = sum(t[0] for t in table); y = r.random() * tot
        c = None
        for wgt, f in table:
            y -= wgt
            if y <= 0: c = f(); break
        if c is None: c = table[0][1]()
        # C14: the same call made by another thread (holding its own context, or none)
        if 'foreign' in F and c.split()[0] in FOREIGN_OK and r.random() < 0.3:
            c = 'foreign %d %s' % (r.randint(0, 1), c)
        return c
    def srckey(self):
        r = self.r; k = r.choice(['fd', 'tmr', 'tmr', 'sgn', 'path', 'thresh', 'task', 'pid'])
        key = {'fd': None, 'tmr': r.choice(TMR_KEYS + [0]), 'sgn': r.choice(SIGS + [0]),
               'path': r.randint(0, 4), 'thresh': r.choice([0, 2000000001, 2000000002]), 'task': r.randint(1, 3), 'pid': r.randint(0, 3)}[k]
        return k, key
    def fd_of(self, m):
        # each module has its own descriptors: one descriptor cannot be polled twice by one context
        return 2 * m + self.r.randint(0, 1)
    def srcdereg(self, m):
        k, key = self.srckey()
        if k == 'fd': key = self.fd_of(m)
        return 'srcdereg %d %s %d' % (m, k, key)
    def srcreg(self, m):
        r = self.r; k, key = self.srckey()
        if k == 'fd': key = self.fd_of(m)
        if k == 'task' and r.random() < 0.5: k, key = 'tmr', r.choice(TMR_KEYS)      # task bodies park until the script fires them
        if k == 'sgn' and key:
            if self.sig_owner.setdefault(key, m) != m: key = 0
        p = r.choice([0, 0, 1, 2, 3, 4]) if k != 'fd' else r.choice([0, 0, 3, 2])
        ac = 0
        if k == 'fd' and r.random() < 0.25 and self.fresh_fd < 16:
            key = self.fresh_fd; self.fresh_fd += 1; ac = 1
            if r.random() < 0.4:                       # M_SRC_DUP (8 + priority): the library polls and later closes its own duplicate
                p = r.choice([8, 8, 11, 10]); ac = r.choice([0, 1])
        one = 1 if (r.random() < 0.25 or (k == 'pid' and r.random() < 0.9)) else 0       # a dead process keeps its descriptor readable: mostly one-shot
        return 'srcreg %d %s %d %d %d %d %d' % (m, k, key, p, one, ac, r.randint(1, 99))
    def env(self):
        r = self.r; x = r.random()
        regs = [c.split() for p in self.procs.values() for c in p if c.startswith('srcreg')]
        if regs and x < 0.7:
            t = r.choice(regs)
            if t[2] == 'fd': return 'fdwrite %s' % t[3]
            if t[2] in ('tmr', 'sgn', 'task', 'path', 'pid') and t[3] != '0': return 'fire %s %s %s' % (t[1], t[2], t[3])
        if x < 0.5: return 'fdwrite %d' % r.randint(0, 9)
        if x < 0.75: return 'fire %d tmr %d' % (self.m(), r.choice(TMR_KEYS + BATCH_NS + [1000000000, 500000000, 200000000, 1000000]))
        if x < 0.9: return 'fire %d sgn %d' % (self.m(), r.choice(SIGS))
        return 'firetick'
    def newproc(self, calls):
        p = self.next_proc; self.next_proc += 1; self.procs[p] = calls; return p
    def cb_body(self, depth, in_evt, me=None):
        n = self.r.choice([0, 0, 1, 1, 2, 3])
        return [self.call(depth, in_evt, me) for _ in range(n)]
    def build_callbacks(self):
        r = self.r
        for m in range(self.nm):
            for kind in ('eval', 'start', 'stop', 'evt'):
                for h in ([0] if kind != 'evt' else [0, 1, 2]):
                    if kind == 'evt' and h > 0 and r.random() < 0.6: continue
                    specs = []
                    for _ in range(r.randint(1, 6)):
                        body = self.cb_body(1, kind == 'evt', m) if r.random() < (0.6 if 'reent' in self.focus else 0.35) else []
                        p = self.newproc(body) if body else 0
                        retv = 1 if (kind in ('stop', 'evt') or r.random() < 0.75) else 0
                        specs.append('%d:%d' % (p, retv))
                    self.cbs.append('cb %d %s %d %s' % (m, kind, h, ' '.join(specs)))
    def program(self, mode):
        r = self.r; prog = ['ctxreg %d' % (1 if r.random() < 0.3 else 0)]
        late = []
        for m in range(self.nm):
            if r.random() < 0.85: prog.append('reg %d' % m)
            else: late.append(m)
        steps = r.randint(4, 22)
        for _ in range(steps):
            x = r.random()
            if late and x < 0.1: prog.append('reg %d' % late.pop())
            elif x < 0.3: prog.append('dispatch')
            elif x < 0.4: prog += [self.env(), 'dispatch']
            elif x < 0.45 and ('ps' in self.focus or 'pill' in self.focus):
                prog += [self.call(0, False) for _ in range(r.randint(2, 5))] + [self.env(), 'dispatch']
            elif mode == 'loop' and x < 0.46:
                prog.append('loop'); prog += [self.env() for _ in range(r.randint(0, 4))]
            else: prog.append(self.call(0, False))
        # wind down: let the loop stop, tear everything down, drop references
        prog += ['dispatch', 'dispatch', 'live', 'quit 5', 'dispatch', 'dispatch', 'live']
        for m in range(self.nm):
            prog.append('state %d' % m)
        order = list(range(self.nm)); r.shuffle(order)
        if r.random() < 0.5:
            for m in order: prog.append('dereg %d' % m)
            prog.append('ctxdereg')
        else:
            prog.append('ctxdereg')
            for m in order: prog += ['state %d' % m, 'unref %d' % m]
        for m in order: prog += ['unref %d' % m, 'unref %d' % m]
        for _ in range(3): prog.append('evtunref 0')
        prog.append('live')
        self.procs[1] = prog
    def lines(self):
        P = self.P; out = []
        for i, m in enumerate(self.mods):
            out.append('mod %d %d %d %d %d %d %d %d %d %d %d' % (i, m['name'], m['slot'], m['replace'], m['persist'], m['denyctx'],
                                                               m['denypub'], m['denysub'], m['heval'], m['hstart'], m['hstop']))
        used = set()
        for p in self.procs.values():
            for c in p:
                t = strip_foreign(c)
                if t[0] in ('sub', 'unsub', 'publish'): used.add(int(t[2]))
        used |= {1001, 1002, 1003, 1004, 1005, 1006}
        for t in sorted(used):
            if t in P.tslot: out.append('tslot %d %d' % (t, P.tslot[t]))
        for a in sorted(used):
            for b in sorted(used):
                if (a, b) in P.rem: out.append('rem %d %d %d' % (a, b, P.rem[(a, b)]))
        out += self.cbs
        for p in sorted(self.procs):
            if p == 0: continue
            out.append('proc %d' % p); out += self.procs[p]; out.append('endproc')
        return out

def gen_case(rng, P, focus=None, mode='dispatch'):
    g = Gen(rng, P, focus)
    g.build_callbacks()
    g.program(mode)
    return 'core', g.lines()

# ---------------------------------------------------------------- scenario generators (aimed at one mechanism each)
def _base(rng, P, nm, hooks=False, flags=None):
    g = Gen(rng, P, set(), nm)
    for i, m in enumerate(g.mods):
        m.update(replace=0, persist=0, denyctx=0, denypub=0, denysub=0)
        if not hooks: m.update(heval=0, hstart=0, hstop=0)
    return g

def gen_sources_case(rng, P):
    """descriptor / timer / signal sources, one-shot or not, several ready in one batch, pause/stop/quit around pending events"""
    g = _base(rng, P, rng.randint(1, 3), hooks=rng.random() < 0.3)
    if any(m['heval'] or m['hstart'] or m['hstop'] for m in g.mods): g.build_callbacks()
    prog = ['ctxreg 1'] + ['reg %d' % m for m in range(g.nm)] + ['dispatch']
    regs = []
    for m in range(g.nm):
        for _ in range(rng.randint(1, 4)):
            k = rng.choice(['fd', 'fd', 'tmr', 'sgn', 'task', 'path', 'pid'])
            key = {'fd': g.fd_of(m), 'tmr': rng.choice(TMR_KEYS), 'sgn': rng.choice(SIGS), 'task': rng.randint(1, 3), 'path': rng.randint(1, 4), 'pid': rng.randint(1, 3)}[k]
            if k == 'sgn' and g.sig_owner.setdefault(key, m) != m: continue
            one = 1 if (rng.random() < 0.3 or (k == 'pid' and rng.random() < 0.9)) else 0
            prio = rng.choice([0, 0, 3]) if k == 'fd' else rng.choice([0, 1, 2, 3])
            if k == 'fd' and rng.random() < 0.3 and g.fresh_fd < 16:      # a descriptor of its own, duplicated by the library (M_SRC_DUP = 8 + priority)
                key = g.fresh_fd; g.fresh_fd += 1; prio = rng.choice([8, 11])
            prog.append('srcreg %d %s %d %d %d 0 %d' % (m, k, key, prio, one, rng.randint(1, 99)))
            regs.append((m, k, key))
    handler_procs = []
    for m in range(g.nm):
        specs = []
        for _ in range(rng.randint(2, 6)):
            body = []
            if rng.random() < 0.4:
                body = [rng.choice(['pause %d' % g.m(), 'stop %d' % g.m(), 'quit %d' % rng.randint(1, 9), 'errno %d' % rng.choice([2, 4, 11, 22]),
                                    'srcdereg %d %s %d' % rng.choice(regs) if regs else 'live', 'srclen %d 8' % m, 'dereg %d' % g.m(), 'resume %d' % g.m()])]
            specs.append('%d:1' % (g.newproc(body) if body else 0))
        g.cbs = [c for c in g.cbs if not c.startswith('cb %d evt 0 ' % m)] + ['cb %d evt 0 %s' % (m, ' '.join(specs))]
    def fire(reg):
        m, k, key = reg
        return 'fdwrite %d' % key if k == 'fd' else 'fire %d %s %d' % (m, k, key)
    for _ in range(rng.randint(3, 10)):
        x = rng.random()
        if regs and x < 0.55: prog += [fire(rng.choice(regs)) for _ in range(rng.choice([1, 1, 2, 3, 5]))] + ['dispatch']
        elif x < 0.6: prog.append(rng.choice(['pause', 'resume', 'stop', 'start']) + ' %d' % g.m())
        elif x < 0.65:                 # leave RUNNING in two steps (pause, then stop or deregister while PAUSED): the loop goes on for the others
            m2 = g.m(); prog += ['pause %d' % m2, rng.choice(['stop %d' % m2, 'stop %d' % m2, 'dereg %d' % m2]), 'stats', 'dispatch']
        elif x < 0.75 and regs: prog.append('srclen %d %d' % (rng.choice(regs)[0], rng.choice([1, 2, 3, 8])))
        elif x < 0.8 and regs: prog += ['loop'] + [fire(rng.choice(regs)) for _ in range(rng.randint(1, 4))]
        elif x < 0.85: prog.append('errno %d' % rng.choice([2, 4, 11, 13]))
        else: prog.append('dispatch')
    prog += ['quit 7', 'dispatch', 'dispatch'] + ['srclen %d 8' % m for m in range(g.nm)] + ['live'] + ['dereg %d' % m for m in range(g.nm)] + ['ctxdereg', 'live']
    g.procs[1] = prog
    return 'core', g.lines()

def gen_batch_case(rng, P):
    """one recipient with a batch size / timeout and subscriptions of every priority; arrivals in every order"""
    g = _base(rng, P, 2)
    prog = ['ctxreg 1', 'reg 0', 'reg 1', 'start 0', 'start 1']
    subs = []
    for t, p in zip(rng.sample(TOPICS, 3), [1, 2, 3]):
        prog.append('sub 1 %d %d 0 %d' % (t, p, 10 + p)); subs.append(t)
    if rng.random() < 0.5: prog.append('srcreg 1 fd %d 0 0 0 44' % g.fd_of(1))
    if rng.random() < 0.8: prog.append('batchsize 1 %d' % rng.choice([1, 2, 3, 5]))
    tns = 0
    if rng.random() < 0.5: tns = rng.choice(BATCH_NS); prog.append('batchtimeout 1 %d' % tns)
    for _ in range(rng.randint(3, 14)):
        x = rng.random()
        if x < 0.55: prog.append('publish 0 %d %d 0' % (rng.choice(subs), g.newdata()))
        elif x < 0.65: prog.append('tell 0 1 %d 0' % g.newdata())
        elif x < 0.72: prog.append('fdwrite %d' % g.fd_of(1))
        elif x < 0.8 and tns: prog.append('fire 1 tmr %d' % tns)
        elif x < 0.86: prog.append(rng.choice(['batchsize 1 %d' % rng.choice([0, 1, 2, 4]), 'batchtimeout 1 %d' % rng.choice([0] + BATCH_NS)]))
        elif x < 0.9: prog.append(rng.choice(['pause 1', 'resume 1', 'stop 1', 'start 1']))
        prog.append('dispatch') if rng.random() < 0.7 else None
    prog += ['dispatch', 'dispatch', 'quit 1', 'dispatch', 'dispatch', 'live', 'dereg 0', 'dereg 1', 'ctxdereg', 'live']
    g.procs[1] = prog
    return 'core', g.lines()

def gen_tb_case(rng, P):
    """token bucket: (rate, burst), bursts of token consuming calls, refills by the bucket timer, reconfiguration, stop"""
    g = _base(rng, P, 2)
    prog = ['ctxreg 1', 'reg 0', 'reg 1', 'start 0', 'start 1']
    rate = rng.choice([1, 2, 5, 1000]); burst = rng.choice([0, 1, 2, 3, 5])
    prog.append('tb 0 %d %d' % (rate, burst))
    for _ in range(rng.randint(4, 16)):
        x = rng.random()
        if x < 0.5: prog.append(rng.choice(['tell 0 1 %d 0' % g.newdata(), 'sub 0 %d 0 0 1' % rng.choice(TOPICS), 'become 0 1', 'unbecome 0',
                                            'batchsize 0 2', 'srcreg 0 tmr %d 0 0 0 3' % rng.choice(TMR_KEYS), 'pause 0', 'resume 0', 'publish 0 1 %d 0' % g.newdata()]))
        elif x < 0.75: prog += ['fire 0 tmr %d' % (1000000000 // rate), 'dispatch']
        elif x < 0.85:
            rate = rng.choice([0, 1, 2, 5, 1000, 1000000000, 1000000001]); burst = rng.choice([0, 1, 2, 4])     # the last two: the largest rate accepted, the smallest refused
            prog.append('tb 0 %d %d' % (rate, burst)); rate = rate if 0 < rate <= 1000000000 else 1
        elif x < 0.9: prog += ['stop 0', 'start 0']
        else: prog.append('dispatch')
    prog += ['dispatch', 'quit 1', 'dispatch', 'dispatch', 'live', 'dereg 0', 'dereg 1', 'ctxdereg', 'live']
    g.procs[1] = prog
    return 'core', g.lines()

def gen_stash_case(rng, P):
    """a handler that stashes what it receives and later unstashes n (n from 0 to beyond), also from inside the unstash handler; become/stop/start in between"""
    g = _base(rng, P, 2)
    specs = []
    for _ in range(rng.randint(3, 8)):
        body = []
        x = rng.random()
        if x < 0.45: body = ['stash 1 %d' % rng.randint(0, 1)] + (['stash 1 1'] if rng.random() < 0.3 else [])
        elif x < 0.75: body = ['unstash 1 %d' % rng.randint(0, 4)]
        elif x < 0.85: body = [rng.choice(['become 1 2', 'unbecome 1', 'evtref 0', 'stop 1', 'pause 1'])]
        specs.append('%d:1' % (g.newproc(body) if body else 0))
    g.cbs = ['cb 1 evt 0 ' + ' '.join(specs), 'cb 1 evt 2 ' + ' '.join(reversed(specs))]
    prog = ['ctxreg 1', 'reg 0', 'reg 1', 'start 0', 'start 1', 'sub 1 1 %d 0 7' % rng.choice([0, 1, 2, 3])]
    if rng.random() < 0.35:
        # directed: k deliveries are stashed, then a partial unstash whose own handler invocation unstashes again (nested)
        k = rng.randint(2, 4)
        st = g.newproc(['stash 1 0']); nest = g.newproc(['unstash 1 %d' % rng.randint(1, 3)] + (['stash 1 0'] if rng.random() < 0.3 else []))
        g.cbs = ['cb 1 evt 0 ' + ' '.join(['%d:1' % st] * k + ['%d:1' % nest] + ['0:1'] * 3)]
        prog = prog[:5] + ['tell 0 1 %d 0' % g.newdata() + '' for _ in range(k)]
        prog = [x for p in prog for x in ([p, 'dispatch'] if p.startswith('tell') else [p])]
        prog += ['unstash 1 %d' % rng.randint(1, k), 'unstash 1 9', 'dispatch', 'quit 1', 'dispatch', 'dispatch', 'live', 'dereg 0', 'dereg 1', 'ctxdereg', 'live']
        g.procs[1] = prog
        return 'core', g.lines()
    if rng.random() < 0.2:
        # directed: events still stashed when the module stops are gone: after stop + start an unstash finds only what was stashed since
        k = rng.randint(1, 3); st = g.newproc(['stash 1 0'])
        g.cbs = ['cb 1 evt 0 ' + ' '.join(['%d:1' % st] * (k + 1) + ['0:1'] * 4)]
        prog = prog[:5]
        for _ in range(k): prog += ['tell 0 1 %d 0' % g.newdata(), 'dispatch']
        if rng.random() < 0.5: prog.append('unstash 1 1')
        prog += [rng.choice(['stop 1', 'stop 1', 'pill 0 1']), 'dispatch', 'start 1', 'unstash 1 9', 'tell 0 1 %d 0' % g.newdata(), 'dispatch', 'unstash 1 9',
                 'dispatch', 'quit 1', 'dispatch', 'dispatch', 'live', 'dereg 0', 'dereg 1', 'ctxdereg', 'live']
        g.procs[1] = prog
        return 'core', g.lines()
    for _ in range(rng.randint(3, 12)):
        x = rng.random()
        if x < 0.45: prog.append('tell 0 1 %d %d' % (g.newdata(), 1 if rng.random() < 0.3 else 0))
        elif x < 0.6: prog.append('publish 0 1 %d 0' % g.newdata())
        elif x < 0.75: prog.append('unstash 1 %d' % rng.randint(0, 5))
        elif x < 0.8: prog.append(rng.choice(['stop 1', 'start 1', 'evtunref 0']))
        prog.append('dispatch')
    prog += ['unstash 1 9', 'dispatch', 'quit 1', 'dispatch', 'dispatch', 'evtunref 0', 'evtunref 0', 'live', 'dereg 0', 'dereg 1', 'ctxdereg', 'live']
    g.procs[1] = prog
    return 'core', g.lines()


def gen_burst_case(rng, P):
    """one mailbox is filled beyond its capacity, then tell / publish / broadcast go on: the overflowing copies are dropped, nobody else is affected"""
    nm = rng.randint(3, 5)
    g = _base(rng, P, nm)
    victim = rng.randrange(1, nm)
    prog = ['ctxreg 1'] + ['reg %d' % m for m in range(nm)] + ['start %d' % m for m in range(nm)]
    for m in range(1, nm):
        if rng.random() < 0.7: prog.append('sub %d 1 0 0 %d' % (m, 10 + m))
    prog += ['tellmany 0 %d %d %d' % (victim, g.newdata(), 512 + rng.choice([0, 1, 7, 300])), 'live']
    for _ in range(rng.randint(1, 4)):
        prog.append(rng.choice(['broadcast 0 %d %d' % (g.newdata(), rng.randint(0, 1)), 'publish 0 1 %d %d' % (g.newdata(), rng.randint(0, 1)),
                                'tell 0 %d %d %d' % (rng.randrange(1, nm), g.newdata(), rng.randint(0, 1))]))
    prog += ['dispatch', 'dispatch', 'dispatch', 'live', rng.choice(['stop %d' % victim, 'pause %d' % victim, 'dereg %d' % victim, 'dispatch']), 'dispatch', 'live',
             'quit 1', 'dispatch', 'dispatch'] + ['dereg %d' % m for m in range(nm)] + ['ctxdereg', 'live']
    g.procs[1] = prog
    return 'core', ['pipecap 512'] + g.lines()     # one page: the smallest pipe the kernel offers

def gen_become_case(rng, P):
    """handler stack: become / unbecome from outside and from inside the handlers themselves (same or other handler), deliveries, stop/start"""
    g = _base(rng, P, 2)
    cbs = []
    for h in (0, 1, 2, 3):
        specs = []
        for _ in range(rng.randint(2, 7)):
            x = rng.random(); body = []
            if x < 0.35: body = ['become 1 %d' % rng.choice([h or 1, h or 1, rng.randint(1, 3)])]
            elif x < 0.55: body = ['unbecome 1']
            elif x < 0.62: body = ['become 1 %d' % rng.randint(1, 3), 'unbecome 1']
            elif x < 0.68: body = [rng.choice(['stop 1', 'pause 1', 'stash 1 0', 'unstash 1 2'])]
            specs.append('%d:1' % (g.newproc(body) if body else 0))
        cbs.append('cb 1 evt %d %s' % (h, ' '.join(specs)))
    g.cbs = cbs
    prog = ['ctxreg 1', 'reg 0', 'reg 1', 'start 0', 'start 1']
    for _ in range(rng.randint(4, 14)):
        x = rng.random()
        if x < 0.55: prog += ['tell 0 1 %d 0' % g.newdata(), 'dispatch']
        elif x < 0.7: prog.append('become 1 %d' % rng.randint(1, 3))
        elif x < 0.85: prog.append('unbecome 1')
        elif x < 0.92: prog += [rng.choice(['stop 1', 'pause 1']), rng.choice(['start 1', 'resume 1'])]
        else: prog.append('dispatch')
    prog += ['unbecome 1', 'unbecome 1', 'tell 0 1 %d 0' % g.newdata(), 'dispatch', 'quit 1', 'dispatch', 'dispatch', 'live', 'dereg 0', 'dereg 1', 'ctxdereg', 'live']
    g.procs[1] = prog
    return 'core', g.lines()

def gen_lifetime_case(rng, P):
    """self-deregistration / stop from inside the handler of a delivery or of a top-level unstash, single user reference, retained events"""
    if rng.random() < 0.4:
        # directed: k deliveries are stashed; a TOP-LEVEL unstash replays them to a handler that gets rid of its own module
        g = _base(rng, P, 2, hooks=rng.random() < 0.5)
        k = rng.randint(1, 3)
        st = g.newproc(['stash 1 0'])
        bye = g.newproc(rng.choice([['dereg 1'], ['dereg 1', 'state 1'], ['stop 1', 'dereg 1'], ['unref 1'], ['dereg 1', 'evtref 0']]))
        g.cbs = ['cb 1 evt 0 ' + ' '.join(['%d:1' % st] * k + ['%d:1' % bye] + ['0:1'] * 2)]
        prog = ['ctxreg 1', 'reg 0', 'reg 1', 'start 0', 'start 1']
        for _ in range(k): prog += ['tell 0 1 %d %d' % (g.newdata(), rng.randint(0, 1)), 'dispatch']
        prog += ['unstash 1 %d' % rng.randint(1, k + 1), 'live', 'state 1', 'dispatch', 'evtunref 0', 'quit 1', 'dispatch', 'dispatch', 'live', 'dereg 0', 'dereg 1', 'ctxdereg', 'live']
        g.procs[1] = prog
        return 'core', g.lines()
    h, lines = gen_stash_case(rng, P)
    out = []
    for l in lines:
        t = l.split()
        if t and t[0] in ('become', 'unbecome', 'evtref') and rng.random() < 0.6:
            l = rng.choice(['dereg 1', 'dereg 1', 'stop 1', 'unref 1', 'evtref 0'])
        out.append(l)
    return h, out

def gen_foreign_case(rng, P):
    """C14: another thread (own context / none) calls the module API on a module while the owner is INSIDE that module's callback,
    inside another module's callback, or outside callbacks; afterwards the owner probes that nothing took effect"""
    g = _base(rng, P, 3, hooks=rng.random() < 0.5)
    def fcall(m):
        own = rng.randint(0, 1)
        c = rng.choice([
            'sub %d %d 2 0 %d' % (m, rng.choice([1, 2, 4]), rng.randint(1, 99)), 'unsub %d 1' % m,
            'become %d %d' % (m, rng.randint(1, 3)), 'unbecome %d' % m, 'batchsize %d %d' % (m, rng.choice([2, 3])),
            'batchtimeout %d 2000000000' % m, 'tb %d 1 1' % m, 'publish %d %d %d %d' % (m, rng.choice([1, 2, 4]), g.newdata(), rng.randint(0, 1)),
            'tell %d %d %d %d' % (m, rng.randrange(3), g.newdata(), rng.randint(0, 1)), 'broadcast %d %d 0' % (m, g.newdata()),
            'pill %d %d' % (m, rng.randrange(3)), 'stop %d' % m, 'pause %d' % m, 'resume %d' % m, 'start %d' % m, 'dereg %d' % m,
            'srcreg %d tmr %d 0 0 0 %d' % (m, rng.choice(TMR_KEYS), rng.randint(1, 99)), 'srcdereg %d tmr %d' % (m, TMR_KEYS[0]),
            'srclen %d 8' % m, 'unstash %d 1' % m, 'stash %d 0' % m, 'state %d' % m, 'ctxlen', 'stats', 'live'])
        return 'foreign %d %s' % (own, c)
    def probe(m):
        return ['srclen %d 0' % m, 'srclen %d 8' % m, 'state %d' % m]
    cbs = []
    for m in (0, 1, 2):
        for kind in ('evt', 'start', 'stop', 'eval'):
            if kind != 'evt' and not g.mods[m]['h' + kind]: continue
            specs = []
            for _ in range(rng.randint(1, 5)):
                body = []
                x = rng.random()
                if x < 0.5: body = [fcall(m) for _ in range(rng.randint(1, 3))]        # the owner is inside m's own callback
                elif x < 0.65: body = [fcall(rng.randrange(3))]
                elif x < 0.75: body = [rng.choice(['sub %d 1 2 0 5' % m, 'become %d 1' % m, 'stash %d 0' % m, 'publish %d 1 %d 0' % (m, g.newdata())])]
                specs.append('%d:1' % (g.newproc(body) if body else 0))
            cbs.append('cb %d %s 0 %s' % (m, kind, ' '.join(specs)))
            if kind == 'evt': cbs.append('cb %d evt 1 0:1 0:1' % m)
    g.cbs = cbs
    prog = ['ctxreg 1', 'reg 0', 'reg 1', 'reg 2', 'start 0', 'start 1', 'start 2', 'sub 1 1 2 0 7', 'sub 2 2 2 0 8']
    for _ in range(rng.randint(5, 14)):
        x = rng.random()
        if x < 0.35: prog += ['tell %d %d %d 0' % (rng.randrange(3), rng.randrange(3), g.newdata()), 'dispatch']
        elif x < 0.5: prog += ['publish 0 %d %d 0' % (rng.choice([1, 2, 4]), g.newdata()), 'dispatch']
        elif x < 0.8: prog += [fcall(rng.randrange(3))] + probe(rng.randrange(3))
        elif x < 0.9: prog += [rng.choice(['stop', 'pause']) + ' 1', fcall(1), rng.choice(['start', 'resume']) + ' 1']
        else: prog.append('dispatch')
    for m in (0, 1, 2): prog += probe(m) + ['unbecome %d' % m]
    prog += ['publish 0 1 %d 0' % g.newdata(), 'publish 0 2 %d 0' % g.newdata(), 'publish 0 4 %d 0' % g.newdata(), 'dispatch', 'quit 1', 'dispatch', 'dispatch', 'live',
             'foreign 1 dereg 0', 'dereg 0', 'dereg 1', 'dereg 2', 'foreign 0 ctxlen', 'ctxdereg', 'live']
    g.procs[1] = prog
    return 'core', g.lines()

def gen_subs_case(rng, P):
    """subscription registry with messages in flight: one-shot subscriptions, replacement (same topic, other flags) and update (same flags)
    between a publication and its delivery, unsubscribe of present/absent topics, regular-expression topics, counts after every step"""
    g = _base(rng, P, 3)
    prog = ['ctxreg 1', 'reg 0', 'reg 1', 'reg 2', 'start 0', 'start 1', 'start 2']
    T = [1, 2, 4]
    def sub(m, t=None, one=None):
        return 'sub %d %d %d %d %d' % (m, t if t is not None else rng.choice(T + PATTERNS[:2]), rng.choice([0, 0, 1, 2, 3]),
                                       one if one is not None else (1 if rng.random() < 0.4 else 0), rng.randint(1, 99))
    specs = []
    for _ in range(rng.randint(2, 6)):
        body = []
        if rng.random() < 0.35: body = [rng.choice([sub(1), 'unsub 1 %d' % rng.choice(T), 'srclen 1 0', 'publish 1 %d %d 0' % (rng.choice(T), g.newdata())])]
        specs.append('%d:1' % (g.newproc(body) if body else 0))
    g.cbs = ['cb 1 evt 0 ' + ' '.join(specs)]
    for _ in range(rng.randint(3, 9)):
        x = rng.random(); m = rng.choice([1, 1, 2]); t = rng.choice(T)
        if x < 0.4:
            # directed: one-shot subscription, a message in flight, the subscription is replaced / updated / removed before delivery
            prog += [sub(m, t, 1), 'publish 0 %d %d %d' % (t, g.newdata(), rng.randint(0, 1))]
            prog += [rng.choice([sub(m, t, 0), sub(m, t, 0), sub(m, t, 1), 'unsub %d %d' % (m, t), 'pause %d' % m, 'srclen %d 0' % m])]
            prog += ['dispatch', 'srclen %d 0' % m, 'publish 0 %d %d 0' % (t, g.newdata()), 'dispatch', 'srclen %d 0' % m,
                     rng.choice(['unsub %d %d' % (m, t), 'resume %d' % m, 'srclen %d 8' % m])]
        elif x < 0.6: prog.append(sub(m))
        elif x < 0.7: prog.append('unsub %d %d' % (m, rng.choice(T + PATTERNS[:2])))
        elif x < 0.85: prog += ['publish 0 %d %d %d' % (t, g.newdata(), rng.randint(0, 1)), 'dispatch']
        else: prog += ['srclen %d 0' % m, 'dispatch']
    prog += ['srclen 1 0', 'srclen 2 0', 'publish 0 1 %d 0' % g.newdata(), 'publish 0 2 %d 0' % g.newdata(), 'publish 0 4 %d 0' % g.newdata(), 'dispatch',
             'quit 3', 'dispatch', 'dispatch', 'live', 'dereg 0', 'dereg 1', 'dereg 2', 'ctxdereg', 'live']
    g.procs[1] = prog
    return 'core', g.lines()

def gen_flush_case(rng, P):
    """the flush at loop stop: messages still in the pipes when the loop is told to quit reach their RUNNING recipients before the loop call
    returns -- also when a handler run by that flush registers or deregisters ANOTHER module (the walk over the module table is interrupted
    and has to be taken up again), pauses or stops a later recipient, or sends further messages"""
    nrec = rng.randint(3, 5); nh = rng.randint(2, 3)
    g = _base(rng, P, 1 + nrec + nh, hooks=rng.random() < 0.2)
    rec = list(range(1, 1 + nrec)); helpers = list(range(1 + nrec, 1 + nrec + nh))
    fresh = [h for h in helpers if rng.random() < 0.5]           # not registered at the beginning: a handler may register it (once)
    old = [h for h in helpers if h not in fresh]
    prog = ['ctxreg 1'] + ['reg %d' % i for i in [0] + rec + old] + ['start %d' % i for i in [0] + rec] + ['start %d' % h for h in old if rng.random() < 0.5]
    for r in rec:
        specs = []
        for _ in range(rng.randint(1, 2)):
            x = rng.random(); body = []
            if x < 0.3 and fresh: body = ['reg %d' % fresh.pop()]
            elif x < 0.6 and old: body = ['dereg %d' % rng.choice(old)]
            elif x < 0.7: body = [rng.choice(['pause', 'stop']) + ' %d' % rng.choice(rec)]
            elif x < 0.8: body = ['tell %d %d %d 0' % (r, rng.choice(rec), g.newdata())]
            specs.append('%d:1' % (g.newproc(body) if body else 0))
        g.cbs = [c for c in g.cbs if not c.startswith('cb %d evt 0 ' % r)] + ['cb %d evt 0 %s' % (r, ' '.join(specs))]
    prog.append('dispatch')                                        # the loop starts
    for _ in range(rng.randint(1, 2)):
        sends = ['tell 0 %d %d 0' % (r, g.newdata()) for r in rec if rng.random() < 0.85]
        if rng.random() < 0.3: sends.append('broadcast 0 %d 0' % g.newdata())
        rng.shuffle(sends)
        prog += sends + ['quit %d' % rng.randint(1, 9), 'dispatch'] + ['state %d' % r for r in rec] + ['live', 'dispatch']
    prog += ['live'] + ['dereg %d' % i for i in [0] + rec + helpers] + ['ctxdereg', 'live']
    g.procs[1] = prog
    return 'core', g.lines()

def gen_subs_or_flush_case(rng, P):
    return gen_flush_case(rng, P) if rng.random() < 0.35 else gen_subs_case(rng, P)

def gen_sysnote_case(rng, P):
    """system notifications: one or two watchers subscribed to the system topics -- RUNNING or PAUSED while things happen -- and every kind of
    transition of the other modules (start, pause, resume, stop, deregistration, also of the LAST running module, also while the watcher is
    paused), driven from outside the loop between dispatch calls; the watcher is resumed at the end and the loop driven until it has everything"""
    nm = rng.randint(3, 4)
    g = _base(rng, P, nm, hooks=rng.random() < 0.25)
    watchers = [0] if rng.random() < 0.7 else [0, 1]
    actors = [m for m in range(nm) if m not in watchers]
    prog = ['ctxreg 1'] + ['reg %d' % m for m in range(nm)] + ['start %d' % m for m in watchers]
    for w in watchers:
        for t in rng.sample(SYS_TOPICS, rng.randint(2, len(SYS_TOPICS))): prog.append('sub %d %d %d 0 %d' % (w, t, rng.choice([0, 0, 2, 3]), rng.randint(1, 99)))
    prog += ['dispatch']
    for _ in range(rng.randint(4, 12)):
        x = rng.random(); a = rng.choice(actors)
        if x < 0.2: prog.append('start %d' % a)
        elif x < 0.4: prog.append('pause %d' % a)
        elif x < 0.55: prog.append('resume %d' % a)
        elif x < 0.7: prog.append('stop %d' % a)
        elif x < 0.75: prog.append('dereg %d' % a)
        elif x < 0.9: prog.append(rng.choice(['pause %d', 'resume %d']) % rng.choice(watchers))
        else: prog.append('dispatch')
    prog += ['resume %d' % w for w in watchers] + ['dispatch', 'dispatch', 'dispatch', 'quit 2', 'dispatch', 'dispatch', 'live'] + ['dereg %d' % m for m in range(nm)] + ['ctxdereg', 'live']
    g.procs[1] = prog
    return 'core', g.lines()

def gen_pill_case(rng, P):
    """poison pills against everything that can be in the recipient's mailbox: earlier and later user messages (every priority), system
    notifications (the recipient subscribes to the system topics), batched events, pill and quit from the same callback, loop stop flush"""
    g = _base(rng, P, 3, hooks=rng.random() < 0.3)
    prog = ['ctxreg 1', 'reg 0', 'reg 1', 'reg 2', 'start 0', 'start 1', 'start 2']
    for t in rng.sample(SYS_TOPICS, rng.randint(1, 4)): prog.append('sub 1 %d %d 0 %d' % (t, rng.choice([0, 0, 1, 2, 3]), rng.randint(1, 99)))
    for t in rng.sample([1, 2, 4], rng.randint(0, 2)): prog.append('sub 1 %d %d 0 %d' % (t, rng.choice([0, 1, 2, 3]), rng.randint(1, 99)))
    if rng.random() < 0.4: prog.append('batchsize 1 %d' % rng.choice([2, 3]))
    def after_pill():
        return rng.choice([['quit %d' % rng.randint(1, 9)], ['tell 0 1 %d 0' % g.newdata()], ['publish 0 %d %d 0' % (rng.choice([1, 2, 4]), g.newdata())],
                           ['pause 2'], ['stop 2'], ['start 2'], ['quit 2', 'tell 2 1 %d 0' % g.newdata()], []])
    specs = []
    for _ in range(rng.randint(1, 4)):
        body = []
        if rng.random() < 0.6: body = ['pill 0 1'] + after_pill()
        specs.append('%d:1' % (g.newproc(body) if body else 0))
    g.cbs = [c for c in g.cbs if not c.startswith('cb 0 evt 0 ')] + ['cb 0 evt 0 ' + ' '.join(specs)]
    for _ in range(rng.randint(3, 8)):
        x = rng.random()
        if x < 0.35: prog += ['tell 2 0 %d 0' % g.newdata(), 'dispatch']          # wakes module 0, whose handler may send the pill
        elif x < 0.5: prog += ['tell 2 1 %d 0' % g.newdata()]
        elif x < 0.6: prog += ['pill 2 1'] + after_pill() + ['dispatch']
        elif x < 0.7: prog += ['publish 2 %d %d 0' % (rng.choice([1, 2, 4]), g.newdata())]
        elif x < 0.8: prog += [rng.choice(['pause 2', 'resume 2', 'stop 2', 'start 2', 'start 1'])]
        else: prog.append('dispatch')
    prog += ['dispatch', 'state 1', 'quit 4', 'dispatch', 'dispatch', 'state 1', 'live', 'dereg 0', 'dereg 1', 'dereg 2', 'ctxdereg', 'live']
    g.procs[1] = prog
    return 'core', g.lines()

def gen_task_case(rng, P):
    """task sources: a pool thread runs the task body (parked until the script lets it finish), completion is one event for the registering
    module, the source is one-shot; registration while idle / running, the same task id again after completion, several tasks and modules,
    refusal of deregistration, other events in the same batch"""
    g = _base(rng, P, 2, hooks=rng.random() < 0.3)
    if any(m['heval'] or m['hstart'] or m['hstop'] for m in g.mods): g.build_callbacks()
    prog = ['ctxreg 1', 'reg 0', 'reg 1']
    pending = []          # (m, tid) registered and not yet fired
    if rng.random() < 0.3:
        prog.append('srcreg 1 task %d 0 0 0 %d' % (1, rng.randint(1, 99))); idle_task = True    # registered while IDLE: the thread starts with the module
    else: idle_task = False
    prog += ['start 0', 'start 1', 'dispatch']
    if idle_task: pending.append((1, 1))
    for _ in range(rng.randint(3, 9)):
        x = rng.random(); m = rng.randrange(2)
        if x < 0.35:
            tid = rng.randint(1, 3)
            prog.append('srcreg %d task %d %d %d 0 %d' % (m, tid, rng.choice([0, 0, 1, 2, 3]), rng.randint(0, 1), rng.randint(1, 99)))
            if (m, tid) not in pending: pending.append((m, tid))
        elif x < 0.65 and pending:
            n = rng.randint(1, len(pending)); fired = [pending.pop(rng.randrange(len(pending))) for _ in range(n)]
            prog += ['fire %d task %d' % f for f in fired]
            if rng.random() < 0.4: prog.append('tell 0 1 %d 0' % g.newdata())
            prog += ['dispatch', 'srclen %d 6' % fired[0][0]]
        elif x < 0.75: prog.append('srcdereg %d task %d' % (m, rng.randint(1, 3)))
        elif x < 0.85: prog += ['srclen %d 6' % m, 'srclen %d 8' % m]
        else: prog.append('dispatch')
    prog += ['fire %d task %d' % f for f in pending] + ['dispatch', 'dispatch', 'srclen 0 6', 'srclen 1 6', 'quit 2', 'dispatch', 'dispatch', 'live',
             'dereg 0', 'dereg 1', 'ctxdereg', 'live']
    g.procs[1] = prog
    return 'core', g.lines()

def gen_registry_case(rng, P):
    """the per-module source registry across state changes: sources of several kinds registered while IDLE / RUNNING / PAUSED, then
    stop (from RUNNING and from PAUSED), restart, pause/resume; after each transition the counts are read and keys are re-registered / deregistered"""
    g = _base(rng, P, 2)
    prog = ['ctxreg 1', 'reg 0', 'reg 1']
    def reg(m):
        k = rng.choice(['fd', 'tmr', 'tmr', 'sgn', 'thresh'])
        key = {'fd': g.fd_of(m), 'tmr': rng.choice(TMR_KEYS[:3]), 'sgn': rng.choice(SIGS[:2]), 'thresh': 2000000001}[k]
        if k == 'sgn' and g.sig_owner.setdefault(key, m) != m: k, key = 'tmr', TMR_KEYS[3]
        return 'srcreg %d %s %d 0 %d 0 %d' % (m, k, key, 1 if rng.random() < 0.15 else 0, rng.randint(1, 99)), (m, k, key)
    regs = []
    def some_regs(m, n):
        out = []
        for _ in range(n):
            c, r = reg(m); out.append(c); regs.append(r)
        return out
    def probe(m):
        out = ['srclen %d 8' % m, 'srclen %d %d' % (m, rng.choice([1, 2, 3, 7]))]
        if regs and rng.random() < 0.7:
            r = rng.choice([x for x in regs if x[0] == m] or regs)
            out.append(rng.choice(['srcreg %d %s %d 0 0 0 5' % r, 'srcdereg %d %s %d' % r]))
        return out
    m = 1
    if rng.random() < 0.4: prog += some_regs(m, rng.randint(1, 2))             # registered while IDLE
    prog += ['start 0', 'start 1'] + some_regs(m, rng.randint(1, 3)) + probe(m)
    for _ in range(rng.randint(2, 6)):
        x = rng.random()
        if x < 0.3: prog += ['pause %d' % m] + (some_regs(m, 1) if rng.random() < 0.5 else []) + probe(m) + [rng.choice(['stop %d' % m, 'resume %d' % m])] + probe(m)
        elif x < 0.5: prog += ['stop %d' % m] + probe(m) + ['start %d' % m] + probe(m)
        elif x < 0.7: prog += some_regs(m, 1) + probe(m)
        elif x < 0.85 and regs: prog += ['srcdereg %d %s %d' % rng.choice(regs)] + probe(m)
        else: prog += ['dispatch'] + probe(m)
    prog += probe(0) + ['quit 1', 'dispatch', 'dispatch'] + probe(m) + ['live', 'dereg 0', 'dereg 1', 'ctxdereg', 'live']
    g.procs[1] = prog
    return 'core', g.lines()

def gen_registry_or_subs_case(rng, P):
    x = rng.random()
    return (gen_subs_case if x < 0.4 else gen_task_case if x < 0.55 else gen_registry_case)(rng, P)

def gen_errno_case(rng, P):
    """errno left behind by EVERY kind of user callback (event handlers, start / stop / eval hooks) while further events of the same
    poll batch are still to be processed: poison pills (whose on_stop hook runs in the middle of a batch), several ready sources,
    direct messages; nothing may be dropped and the loop may not end because of it"""
    g = _base(rng, P, 3, hooks=True)
    for m in g.mods: m.update(hstop=1, hstart=rng.randint(0, 1), heval=rng.randint(0, 1))
    E = [2, 4, 11, 13, 22, 32]
    cbs = []
    for m in range(3):
        for kind in ('stop', 'start', 'eval', 'evt'):
            if kind in ('start', 'eval') and not g.mods[m]['h' + kind]: continue
            specs = []
            for _ in range(rng.randint(1, 4)):
                body = ['errno %d' % rng.choice(E)] if rng.random() < 0.7 else []
                if kind == 'evt' and rng.random() < 0.2: body.append(rng.choice(['pill %d %d' % (m, (m + 1) % 3), 'stop %d' % ((m + 1) % 3), 'pause %d' % ((m + 2) % 3)]))
                specs.append('%d:1' % (g.newproc(body) if body else 0))
            cbs.append('cb %d %s 0 %s' % (m, kind, ' '.join(specs)))
    g.cbs = cbs
    prog = ['ctxreg 1', 'reg 0', 'reg 1', 'reg 2', 'dispatch']
    regs = []
    for m in range(3):
        for _ in range(rng.randint(1, 2)):
            k = rng.choice(['fd', 'tmr'])
            key = g.fd_of(m) if k == 'fd' else rng.choice(TMR_KEYS)
            prog.append('srcreg %d %s %d 0 %d 0 %d' % (m, k, key, 1 if rng.random() < 0.3 else 0, rng.randint(1, 99)))
            regs.append((m, k, key))
    def fire(reg):
        m, k, key = reg
        return 'fdwrite %d' % key if k == 'fd' else 'fire %d %s %d' % (m, k, key)
    for _ in range(rng.randint(2, 6)):
        batch = []
        if rng.random() < 0.6: batch.append('pill %d %d' % (rng.randrange(3), rng.randrange(3)))
        batch += [fire(rng.choice(regs)) for _ in range(rng.randint(1, 3))]
        if rng.random() < 0.5: batch.append('tell %d %d %d 0' % (rng.randrange(3), rng.randrange(3), g.newdata()))
        rng.shuffle(batch)
        prog += batch + ['dispatch'] + (['start %d' % rng.randrange(3)] if rng.random() < 0.5 else [])
    prog += ['dispatch', 'quit 7', 'dispatch', 'dispatch'] + ['srclen %d 8' % m for m in range(3)] + ['live', 'dereg 0', 'dereg 1', 'dereg 2', 'ctxdereg', 'live']
    g.procs[1] = prog
    return 'core', g.lines()

def gen_sources_or_subs_case(rng, P):
    x = rng.random()
    return (gen_subs_case if x < 0.2 else gen_errno_case if x < 0.45 else gen_task_case if x < 0.6 else gen_sources_case)(rng, P)

def gen_mixed_case(rng, P):
    return rng.choice([gen_sources_case, gen_stash_case, gen_lifetime_case, gen_lifetime_case, gen_batch_case, gen_become_case, gen_burst_case])(rng, P)
