#!/bin/bash
# seed_all.sh -- every seeded change against the quick check of its property (applies and reverts each on /repo)
cd /verif
for d in seeded/*/; do
  n=$(basename $d); p=$(python3 -c "import json;print(json.load(open('$d/meta.json'))['property'])")
  tools/seed_try.sh $n $p 2>&1 | tail -1
done
