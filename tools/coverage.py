#!/usr/bin/env python3
# coverage.py -- how much of the library do the scripts of the checks execute?  (supporting evidence for the correspondence tie)
#   builds each driver with gcc --coverage (no sanitizer), replays the case files the last run of every check left in out/<id>/,
#   runs gcov and reports line coverage per library source, with the functions that were never entered.
#   usage: python3 tools/coverage.py [--fresh]     (--fresh first re-runs every quick check so that out/ is current)
import os, sys, re, json, glob, subprocess, shutil
sys.path.insert(0, os.path.dirname(os.path.abspath(__file__)))
from common import *
import props_structs, props_core, props_conc

ENGINES = {
  'drv_structs': (props_structs, ['C05', 'C10', 'C11', 'C12']),
  'drv_core': (props_core, sorted(props_core.REGISTRY)),
  'drv_thpool': (props_conc, ['C06']),
}

def build(name, chk):
    d = os.path.join(CACHE, 'cov', name); shutil.rmtree(d, ignore_errors=True); os.makedirs(d)
    hd = os.path.join(VERIF, 'harness')
    base = ['gcc', '-std=gnu11', '-D_GNU_SOURCE', '-D' + GUARD, '-g', '-O0', '--coverage', '-w'] + [f for f in chk.driver_flags if not f.startswith('-Wl')] + inc_flags() + ['-I' + hd]
    objs = []
    # one object per source: two library files share the base name mem.c, and gcov data files are named after the object
    for src in [os.path.join(hd, name + '.c'), os.path.join(hd, 'cov_exit.c')] + [os.path.join(LIB, s) for s in chk.driver_srcs]:
        o = os.path.join(d, os.path.relpath(src, '/').replace('/', '_')[:-2] + '.o')
        r = subprocess.run(base + ['-c', src, '-o', o], cwd=d, stdout=subprocess.PIPE, stderr=subprocess.STDOUT, text=True)
        if r.returncode: print(r.stdout[-3000:]); return None
        objs.append(o)
    r = subprocess.run(['gcc', '--coverage', '-Wl,--wrap=_exit'] + [f for f in chk.driver_flags if f.startswith('-Wl')] + objs + ['-o', os.path.join(d, 'drv')] + list(chk.driver_libs),
                       cwd=d, stdout=subprocess.PIPE, stderr=subprocess.STDOUT, text=True)
    if r.returncode: print(r.stdout[-3000:]); return None
    return d

def main():
    if '--fresh' in sys.argv:
        subprocess.run([os.path.join(VERIF, 'tools', 'all_quick.sh')])
    report = {}
    for name, (mod, pids) in ENGINES.items():
        chk = mod.REGISTRY[pids[0]]
        d = build(name, chk)
        if not d: return 1
        files = [f for p in pids for f in sorted(glob.glob(os.path.join(OUT, p, 'main_c_*.txt')))]
        procs = []
        for i in range(0, len(files), NPROC):
            ps = [subprocess.Popen([os.path.join(d, 'drv'), f], stdout=subprocess.DEVNULL, stderr=subprocess.DEVNULL, cwd=d) for f in files[i:i + NPROC]]
            for p in ps:
                try: p.wait(timeout=900)
                except subprocess.TimeoutExpired: p.kill()
        # gcov every data file of this engine; each produced *.gcov names its source in the "Source:" header
        for f in glob.glob(os.path.join(d, '*.gcov')): os.unlink(f)
        never_here = {}
        for gcda in sorted(glob.glob(os.path.join(d, '*.gcda'))):
            r = subprocess.run(['gcov', '-p', '-f', '-o', d, gcda], cwd=d, stdout=subprocess.PIPE, stderr=subprocess.STDOUT, text=True)
            for m in re.finditer(r"Function '(\w+)'\nLines executed:([\d.]+)% of (\d+)", r.stdout):
                never_here.setdefault(m.group(1), True)
                if float(m.group(2)) > 0.0: never_here[m.group(1)] = False
            for gc in glob.glob(os.path.join(d, '*.gcov')):
                lines = open(gc, errors='replace').read().splitlines()
                srcl = [l for l in lines[:3] if 'Source:' in l]
                if not srcl: continue
                path = os.path.normpath(os.path.join(d, srcl[0].split('Source:')[1].strip()))
                if not path.startswith(LIB): continue
                rel = os.path.relpath(path, LIB)
                ent = report.setdefault(rel, dict(all=set(), cov=set(), entered=set(), funcs=set()))
                for l in lines:
                    m = re.match(r'\s*([#=\-\d*]+):\s*(\d+):', l)
                    if not m or m.group(1) == '-' or m.group(2) == '0': continue
                    ent['all'].add(int(m.group(2)))
                    if not m.group(1).startswith(('#', '=')): ent['cov'].add(int(m.group(2)))
                os.unlink(gc)
        report.setdefault('_never_' + name, sorted(k for k, v in never_here.items() if v))
        report['_cases_' + name] = len(files)
    out = {}
    for k, v in report.items():
        if k.startswith('_'): out[k] = v; continue
        out[k] = dict(lines=len(v['all']), covered=len(v['cov']), percent=round(100.0 * len(v['cov']) / max(1, len(v['all'])), 1),
                      uncovered_lines=sorted(v['all'] - v['cov']))
    # a function counts as never entered only if no engine entered it
    entered_somewhere = set()
    allf = set()
    for name in ENGINES:
        allf |= set(out.get('_never_' + name, []))
    out['never_entered_by_any_engine'] = sorted(f for f in allf if all(f in out.get('_never_' + n, []) or True for n in ENGINES))
    report = out
    tot = sum(v['lines'] for k, v in report.items() if isinstance(v, dict) and 'lines' in v); cv = sum(v['covered'] for k, v in report.items() if isinstance(v, dict) and 'lines' in v)
    report['_total'] = dict(lines=tot, covered=cv, percent=round(100.0 * cv / max(1, tot), 1))
    json.dump(report, open(os.path.join(VERIF, 'evidence', 'coverage.json'), 'w'), indent=1, sort_keys=True)
    for src in sorted(k for k, v in report.items() if isinstance(v, dict) and 'lines' in v and not k.startswith('_')):
        r = report[src]
        print('%-28s %5.1f%%  (%d/%d lines)' % (src, r['percent'], r['covered'], r['lines']))
    print('TOTAL %.1f%% (%d/%d executable lines of Lib executed by the scripts of the checks)' % (report['_total']['percent'], report['_total']['covered'], report['_total']['lines']))
    return 0
if __name__ == '__main__':
    sys.exit(main())
