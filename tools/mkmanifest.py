#!/usr/bin/env python3
# mkmanifest.py -- writes MANIFEST.json from the table below (kept next to the checks)
import json, os, sys
sys.path.insert(0, os.path.dirname(os.path.abspath(__file__)))
VERIF = os.path.dirname(os.path.dirname(os.path.abspath(__file__)))

NOTE_COMMON = ('Trusted: Coq 8.16.1 kernel + vm_compute (no native_compute); no axioms (Print Assumptions = Closed under the global '
               'context for every theorem of the property file); extraction via ExtrOcamlBasic only (no Extract Constant/Inductive) + '
               'hand-written OCaml glue; C driver, Python orchestrator, gcc/ASan/UBSan; coq/Consts.v regenerated from /repo on every run. '
               'The Gallina model is hand-written: its fidelity to the C is CHECKED by differential runs on every invocation, not proved. ')

CLAIMS = {
 'C12': dict(
   text='Coq theorems over an executable model of queue.c/stack.c/list.c that keeps the redundant tail/len fields the C keeps: '
        'representation invariant for every op list, refinement to a plain FIFO/LIFO/list specification (for every user comparator), '
        'FIFO/LIFO order for every n, complete-iteration theorem (every element visited once, in order, under arbitrary '
        'keep/remove/replace actions incl. removal of the last element; destructor log exact). Tie: full-trace differential runs of the '
        'extracted model against the real code under ASan (random + all short op sequences).',
   note=NOTE_COMMON + 'Below the model: pointer-level memory safety of the library code itself (judged by ASan on executed scripts only).',
   technique='Coq proof (invariant + refinement by induction over op lists) tied by extracted-model differential testing',
   design='7/C12'),
}

def main():
    props = [json.loads(l)['id'] for l in open(os.path.join(VERIF, 'properties.jsonl'))]
    checks = []
    for pid in props:
        if pid not in CLAIMS: continue
        c = CLAIMS[pid]
        checks.append(dict(
            property_id=pid,
            quick_cmd='python3 tools/run.py check %s --tier quick' % pid,
            thorough_cmd='python3 tools/run.py check %s --tier thorough' % pid,
            evidence_file='/verif/evidence/%s.json' % pid,
            replay_cmd_template='python3 tools/run.py replay %s {path}' % pid,
            engine=c.get('engine', 'coq+diff'),
            level_claimed=dict(category='proof', text=c['text'], design_ref='DESIGN.md ' + c['design']),
            level_note=c['note'],
            technique=c['technique']))
    na = [dict(property_id=p, reason='check not built yet in this session (work in progress; see DESIGN.md 11)') for p in props if p not in CLAIMS]
    m = dict(
        version=1,
        setup_cmd='python3 tools/run.py setup',
        hooks=dict(guard='LIBMODULE_VERIF',
                   enable='checks compile /repo sources directly with -DLIBMODULE_VERIF (no hook is currently needed: white-box inclusion and link-time wrapping reach everything)',
                   baseline_off_cmd='cmake --build /repo/_build && ctest --test-dir /repo/_build -j8 --timeout 900',
                   source_commits=[], add_only=True),
        engines=[dict(name='coq+diff', path='tools/run.py', serves_properties=sorted(CLAIMS),
                      kind_free_text='Coq 8.16 theorems over hand-written executable Gallina models; models extracted to OCaml and run against '
                                     'the real library (ASan/UBSan build of the current tree) on generated + corpus scripts; constants regenerated from the tree')],
        checks=checks,
        not_applicable=na,
        notes='See DESIGN.md. Known findings: known_findings.txt.')
    json.dump(m, open(os.path.join(VERIF, 'MANIFEST.json'), 'w'), indent=1)
    print('MANIFEST.json: %d checks, %d not claimed' % (len(checks), len(na)))
if __name__ == '__main__':
    main()
