#!/usr/bin/env python3
# mkmanifest.py -- writes MANIFEST.json from the table below (kept next to the checks)
import json, os, sys
sys.path.insert(0, os.path.dirname(os.path.abspath(__file__)))
VERIF = os.path.dirname(os.path.dirname(os.path.abspath(__file__)))

NOTE_COMMON = ('Trusted: Coq 8.16.1 kernel + vm_compute (no native_compute); no axioms (Print Assumptions = Closed under the global '
               'context for every theorem of the property file); extraction via ExtrOcamlBasic only (no Extract Constant/Inductive) + '
               'hand-written OCaml glue; C driver, Python orchestrator, gcc/ASan/UBSan; coq/Consts.v (constants) and coq/Guards.v (guard macros of every public core function, syntactic scan) regenerated from /repo on every run. '
               'The Gallina model is hand-written: its fidelity to the C is CHECKED by differential runs on every invocation, not proved. ')

CLAIMS = {
 'C12': dict(
   text='Coq theorems over an executable model of queue.c/stack.c/list.c that keeps the redundant tail/len fields the C keeps: '
        'representation invariant for every op list, refinement to a plain FIFO/LIFO/list specification (for every user comparator), '
        'FIFO/LIFO order for every n, complete-iteration theorem (every element visited once, in order, under arbitrary '
        'keep/remove/replace actions incl. removal of the last element; destructor log exact; for the list also INSERTION through the iterator: every original element once, inserted ones not visited). Tie: full-trace differential runs of the '
        'extracted model against the real code under ASan (random + all short op sequences).',
   note=NOTE_COMMON + 'Below the model: pointer-level memory safety of the library code itself (judged by ASan on executed scripts only). '
        'Iterator actions are one per element (get, then at most one of remove / set / insert, then next).',
   technique='Coq proof (invariant + refinement by induction over op lists) tied by extracted-model differential testing',
   design='7/C12'),
 'C11': dict(
   text='Coq theorems for EVERY comparator consistent with a total order on keys: search-tree invariant for every op list, set semantics of '
        'insert/find/remove/len with the exact destructor target, sorted in-order traversal and pre/post-order consistency, complete iteration '
        'with removal of arbitrary elements; the default pointer comparator and the drivers comparators are proved to meet the contract for '
        'all 64-bit values. Tie: differential runs (all insertion orders of 5 keys x removals, random ops, pointers up to 2^64 apart).',
   note=NOTE_COMMON + 'Parent pointers of the C tree are not represented (iterator modelled by values); their maintenance is covered by the differential runs and ASan only.',
   technique='Coq proof (BST invariant, refinement to sorted lists) tied by extracted-model differential testing', design='7/C11'),
 'C10': dict(
   text='Coq theorems: layout (alignment for every size given a max-aligned allocator, shift byte, exact size, header round-trip) on the model '
        'arithmetic fed by constants regenerated from the tree; reference counting for every op sequence with nested destructors: blocks alive '
        'while referenced, unref of the last reference destroys exactly once, destructor before free, each block at most once, fuel of the model '
        'loop proved sufficient. Tie: differential runs incl. EVERY size 0..4096 (offset, bytes requested, alignment, ASan-checked writability).',
   note=NOTE_COMMON + 'The layout functions are hand-written (no C-to-Gallina translator); they are compared with the real m_mem_new on every size of the sweep.',
   technique='Coq proof (loop invariants over a work-list model) tied by extracted-model differential testing', design='7/C10'),
 'C05': dict(
   text='Coq theorems over an executable model of map.c (probing bounded by size/2, doubling rehash with revert, back-shift deletion, '
        'slot-order iterators) for an ARBITRARY hash function and every table size >= 4: representation invariant (distinct keys, every key '
        'within the probe window of its home with no empty slot on its path, length field = live entries, a free slot exists) in every '
        'reachable state under every op list (puts with growth, removals, clear, free, callback iteration with removals, iterator set/remove); '
        'get/contains answer for exactly the live entries; put stores a new key / replaces a value / fails without effect; remove deletes '
        'exactly the named entry (back-shift correctness); rehash keeps exactly the entries; len = number of distinct live keys; callback '
        'iteration and the iterator object, without mutation, visit every live entry exactly once; clear leaves an empty map and the destructor log of clear / free releases every live entry exactly once and nothing else. The clause "iteration with removal visits every live entry exactly '
        'once" is REFUTED on the model by a computed witness (C05_iterate_with_removal_refuted) = known finding D12 on the code. Tie: the '
        'extracted model runs against the real map on adversarial key pools chosen with the real hash (same home slot, last slots, '
        'consecutive homes, clusters > size/2, growth) + an independent monitor of the iteration clause.',
   note=NOTE_COMMON + 'Not proved: iteration WITH mutation other than the refuted clause '
        '(iterator set/remove are covered by invariant preservation only); allocation failure is not modelled '
        '(rehash "revert" = the probe-window failure path). Known finding D12 is listed in known_findings.txt.',
   technique='Coq proof (representation invariant by induction over op lists, refinement to the finite map represented, for every hash function) tied by extracted-model differential testing',
   design='7/C05'),
}
CLAIMS['C06'] = dict(
   text='Coq theorems over a small-step model of thpool.c at the granularity of pthread operations, for EVERY schedule (arbitrary list of thread '
        'choices incl. spurious wake-ups), every flavour (eager/lazy, joinable/detached, wait-all or not) and any number of submitters, workers '
        'and tasks: (1) tasks are conserved by every transition, hence every task runs at most once, only submitted tasks run, discarded tasks never '
        'ran; (2) QUIESCENCE: an inductive safety invariant (lock ownership, alive counter = workers that have not announced their exit, submitters '
        'finished once free started, joined workers finished, every worker finished once the freeing thread passed its join / alive==0 wait) shows that '
        'after the pool is destroyed every worker has returned and no pool thread ever touches the pool again; (3) the pool lock is mutually exclusive; '
        '(4) BOUNDED PARALLELISM: never more workers, hence never more tasks running at once, than max_threads; (5) WAIT-ALL COMPLETENESS as safety: '
        'if free(wait_all) has returned, the multiset of executed tasks equals the multiset of submitted ones and nothing was discarded; '
        '(6) NO DEADLOCK: in every reachable state with an unfinished thread some thread can take a state-changing step (no lost wake-up). '
        'Tie: the real thpool.c runs under a deterministic scheduler (link-time wraps of its pthread calls, virtualised mutex/condition); for '
        'the same schedule the per-step pending-operation codes and the execution log must equal the extracted model (random schedules + every '
        'schedule prefix of length 5 over a 1x1x2 pool); ASan reports a worker touching a freed pool.',
   note=NOTE_COMMON + 'NOT proved: termination (that free eventually returns) under a fair schedule -- the no-deadlock theorem gives progress, not a '
        'measure; the wait-current flavour (which tasks may be discarded). Theorems (4)-(6) assume max_threads >= 1. Below the model: accesses outside the lock (entry asserts, atomic running counter), weak memory; m_thpool_length/clear not modelled; '
        'free is assumed to happen after every submitter call returned.',
   technique='Coq proof (conservation invariant + inductive safety invariant over arbitrary schedules) tied by deterministic-scheduler differential testing',
   design='7/C06')
CORE_TEXT = {
 'C01': 'a pass over the module table visits every module exactly once whatever the callbacks answer (while the table is unchanged), the evaluation step starts an IDLE module without / with an approving evaluation callback, pause and resume move the running counter by exactly one; GLOBAL (every script, every callback behaviour, from any world on): a registered module never returns to IDLE and ZOMBIE is final (lifecycle_monotone, via the generic invariant theorem of CoreInv.v whose obligations are the edges themselves); the state sets of the guards are the M_MOD_ASSERT_STATE arguments read from the C source (Guards.v); guards of every state-changing call refuse without effect (any wrong state, zombies, no context); plus per-run monitors: no handler for a non-RUNNING module, reported running count = RUNNING modules',
 'C02': 'ONE WHOLE SEND, every world: a broadcast appends exactly one copy per table entry at the tail of the pipe of every RUNNING/PAUSED module (while there is room) and changes no other pipe; a publish does so for exactly the RUNNING/PAUSED modules with a matching subscription; a direct tell changes no other pipe; copies: ineligible modules get nothing, eligible ones exactly one copy appended at the tail of their pipe carrying sender/topic/payload, full pipe drops the copy, capacity >= 8192, direct tell reaches the addressee only; per-run monitors: at-most-once, send order, auto-free exactly once',
 'C03': 'the blocking loop returns only on quit / no RUNNING module / no context; GLOBAL: what identifies a source (object, kind, key, flags, owner) never changes; errno non-interference of event reception, dispatch case analysis, quit code recorded and returned, ready set sound and bounded by max_events, event userdata = source userdata',
 'C04': 'GLOBAL on the core object heap: an object keeps kind and tag and once its count reached zero it stays zero (nothing resurrected, nothing destroyed twice); ref-counted heap discipline of the model (ref/unref steps, destructor once at zero, use of freed objects flagged); the property itself is judged per run by ASan/UBSan and the allocator census (partial by nature); known finding D10 (task thread outliving its source) is listed in known_findings.txt and reproduced by a corpus case',
 'C07': 'deregistering an idle context leaves the thread without context; a table pass reaches every module; the context-guarded calls are exactly the C functions containing M_CTX_ASSERT (Guards.v, regenerated); second context refused with EEXIST, every context call / registration without context refused with EPIPE, module operations refused with EPERM, looping or zombie context refuses deregistration, finalized context refuses registration',
 'C08': 'per send the copies go to the tail of every recipient pipe, reception takes the head of the pipe; copies are appended at the pipe tail, events are appended to the batch in arrival order and handed over in that order; per-run monitor of per-recipient send order incl. pills',
 'C09': 'stopping empties the registry (after drop_sources the module lists no source, none of those it held is polled, polling is never switched on by the way); GLOBAL: source keys never change; priority bits are validated by exactly the subscription / source-registration functions (M_SRC_ASSERT_PRIO_FLAGS, Guards.v regenerated); registry steps: present key -> EEXIST, absent -> added, bad priority -> EINVAL without token, deregister present removes exactly that entry, absent -> error without effect, tasks cannot be deregistered',
 'C13': 'the flush decision as a function of priority, batch size and accumulated count (high: always, low: never, normal: count >= size, size 0: at once), batch timer hands over everything accumulated',
 'C14': 'thread confinement: a thread holding another context or none fails M_MOD_ASSERT with EPERM; whenever that assertion fails EVERY module operation / pub-sub call is refused with a negative code and no effect; a foreign call leaves the owner thread context untouched; a message cannot be addressed to a module of another context. Independence: coq/Globals.v (every library symbol in a writable section with its writers, REGENERATED from the tree by nm + a source scan on every run) satisfies the policy of coq/GlobalsModel.v, hence no two accesses of different context threads to one global race (happens-before model by phases: ELF constructor, pthread_once, documented configuration step). Further engines of this check: foreign-thread calls are really made by another pthread in the differential driver (also while the owner is inside the module callback); 2..16 contexts loop concurrently under ThreadSanitizer and each context observation is compared with the same program run alone',
 'C15': 'GLOBAL: name and flags (replace, persist, deny-ctx/pub/sub, hooks) of a registered module never change (lifecycle_monotone); the deny-guarded calls are the C functions containing M_MOD_ASSERT_PERM (Guards.v, regenerated); live name without allow-replace -> EEXIST, deny-pub / deny-sub calls refused, deny-ctx hides the context during the callbacks of the module, reserved topic prefix refused, persistent module not deregistrable while looping',
 'C16': 'GLOBAL: in every reachable world a module that is not RUNNING/PAUSED has an empty stash (stack_and_stash_empty_unless_active); unstash(n) hands over exactly firstn n of the stash in one invocation and returns that number, stash appends, high priority events refused, both refused unless RUNNING',
 'C17': 'GLOBAL: in every reachable world a module that is not RUNNING/PAUSED has an empty handler stack, i.e. every stop clears it, for every script and callback behaviour (stack_and_stash_empty_unless_active); become pushes, unbecome pops the top or fails on the empty stack, every invocation runs hd(stack) fixed before the body starts, no empty invocation, both refused unless RUNNING; two steps composed: in the world an accepted become(h) returns the next invocation runs h, after an accepted unbecome it runs the handler below or the registration-time one',
 'C18': 'GLOBAL: in every reachable world every bucket is well formed and holds at most its burst (tokens_never_exceed_burst); which calls consume a token is READ FROM THE C SOURCE (Guards.v): every call whose function contains M_MOD_CONSUME_TOKEN is refused without effect on an empty bucket (out_of_tokens_refused), the set is pinned (token_guarded_calls) and the token is taken after every other check (token_is_consumed_last); token consumption step (unlimited / refused at 0 / decrement) and the bucket bound for EVERY sequence of consumes and refills: successes <= tokens + refills <= burst + refills',
 'C19': 'one notification reaches exactly the RUNNING/PAUSED modules subscribed to its topic, one copy each, system-flagged, payload-less, naming its module; shape of a system notification (system flag, no payload, named sender), pause and resume notify exactly once after the state change',
 'C20': 'after drop_sources none of the sources of the module is polled (their internal descriptors are closed); what each destructor closes: poll handle with the context, user descriptors only with auto-close, internal descriptors when polling stops (idempotent)',
}
NOTE_EXTRA = {
 'C14': ' C14 specifically: the race-freedom theorem is about an inventory produced by a syntactic translator (nm for the symbols, a regular-expression scan for '
        'writers; writes through pointers that escaped earlier, and state shared through the heap or the kernel, are outside it) and about a phase model '
        'whose ordering mechanisms (pthread_once, ELF constructor, "m_set_memhook before anything else") are assumed, not derived from the C. "Under every '
        'interleaving" is NOT proved for the real code: ThreadSanitizer judges only the interleavings the runs produce (partial). The model is sequential: a '
        'foreign call is atomic with respect to the owner thread (in the driver the owner waits for the foreign thread).',
}
for _p, _t in CORE_TEXT.items():
    CLAIMS[_p] = dict(
        text='Coq theorems over the executable actor-core model, for every behaviour of user callbacks: ' + _t +
             '. Tie: the extracted model runs the same scripted, re-entrant programs as the real library (ASan/UBSan build, canonical epoll '
             'order, scripted environment); full traces must agree; a property-level projection decides whether a difference is a violation.',
        note=NOTE_COMMON + 'Core model = hand-written statement-order transliteration of ctx.c/mod.c/ps.c/src.c/evts.c/epoll.c (coq/CoreModel.v, CoreExec.v) with scripted, re-entrant callbacks. PROVED: the one-step theorems of the property file, for every behaviour of user callbacks. NOT PROVED (decided per run by the differential check and the trace monitors only): statements over whole histories. Out of the model: kqueue/uring plugins, FUSE, dlopen modules, task threads, thresholds firing, real time.' + NOTE_EXTRA.get(_p, ''),
        technique=('Coq proof (global invariant through the callback knot + one-step lemmas + guard table regenerated from the C source) + extracted-model differential testing with trace monitors' if _p in ('C01', 'C03', 'C04', 'C09', 'C15', 'C16', 'C17', 'C18') else 'Coq proof (whole-function theorems of one send / one stop / the loop + one-step lemmas) + extracted-model differential testing with trace monitors' if _p in ('C02', 'C08', 'C19', 'C20', 'C07') else 'Coq proof of one-step lemmas + extracted-model differential testing with trace monitors (history-level clauses not proved)'),
        design='7/' + _p)

def main():
    props = [json.loads(l)['id'] for l in open(os.path.join(VERIF, 'properties.jsonl'))]
    checks = []
    for pid in props:
        if pid not in CLAIMS: continue
        c = CLAIMS[pid]
        checks.append(dict(
            property_id=pid,
            quick_cmd='python3 tools/run.py check %s --tier quick' % pid,
            thorough_cmd='python3 tools/run.py check %s --tier thorough' % pid,
            evidence_file='/verif/evidence/%s.json' % pid,
            replay_cmd_template='python3 tools/run.py replay %s {path}' % pid,
            engine=c.get('engine', 'coq+diff'),
            level_claimed=dict(category=c.get('level', 'proof'), text=c['text'], design_ref='DESIGN.md ' + c['design']),
            level_note=c['note'],
            technique=c['technique']))
    na = [dict(property_id=p, reason='check not built yet (thread-level model and deterministic scheduler harness pending; see DESIGN.md 11)') for p in props if p not in CLAIMS]
    m = dict(
        version=1,
        setup_cmd='python3 tools/run.py setup',
        hooks=dict(guard='LIBMODULE_VERIF',
                   enable='checks compile /repo sources directly with -DLIBMODULE_VERIF (no hook is currently needed: white-box inclusion and link-time wrapping reach everything)',
                   baseline_off_cmd='cmake --build /repo/_build && ctest --test-dir /repo/_build -j8 --timeout 900',
                   source_commits=[], add_only=True),
        engines=[dict(name='coq+diff', path='tools/run.py', serves_properties=sorted(CLAIMS),
                      kind_free_text='Coq 8.16 theorems over hand-written executable Gallina models; models extracted to OCaml and run against '
                                     'the real library (ASan/UBSan build of the current tree) on generated + corpus scripts; constants regenerated from the tree')],
        checks=checks,
        not_applicable=na,
        notes='See DESIGN.md. Known findings: known_findings.txt.')
    json.dump(m, open(os.path.join(VERIF, 'MANIFEST.json'), 'w'), indent=1)
    print('MANIFEST.json: %d checks, %d not claimed' % (len(checks), len(na)))
if __name__ == '__main__':
    main()
