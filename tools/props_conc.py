# props_conc.py -- C06 (thread pool under a deterministic scheduler), C14 (threads and contexts)
import os, re, itertools
from common import *
from checkbase import Check

TH_SRCS = ('thpool/thpool.c', 'structs/queue.c', 'structs/list.c', 'utils/mem.c', 'utils/log.c')
WRAPS = '-Wl,--wrap=pthread_mutex_lock,--wrap=pthread_mutex_unlock,--wrap=pthread_cond_wait,--wrap=pthread_cond_signal,--wrap=pthread_cond_broadcast,--wrap=pthread_cond_destroy,--wrap=pthread_create,--wrap=pthread_join'

def gen_pool_case(rng):
    lazy, det, mx, wall = rng.randint(0, 1), rng.randint(0, 1), rng.randint(1, 3), rng.randint(0, 1)
    nsubs = rng.randint(1, 3); k = 1; subs = []
    for _ in range(nsubs):
        n = rng.choice([0, 1, 1, 2, 3]); subs.append(list(range(k, k + n))); k += n
    nth = (0 if lazy else mx) + nsubs + 1 + (mx if lazy else 0)
    sched = []
    style = rng.random()
    for _ in range(rng.randint(20, 140)):
        if style < 0.3 and sched and rng.random() < 0.6: t = abs(sched[-1]) if sched[-1] >= 0 else -sched[-1] - 1    # long runs of one thread
        else: t = rng.randrange(nth)
        sched.append(-(t + 1) if rng.random() < 0.08 else t)
    if rng.random() < 0.8:      # drain: round robin until everybody is done
        for _ in range(rng.randint(10, 40)): sched += list(range(nth))
    lines = ['sub ' + ' '.join(map(str, s)) for s in subs] + ['sched ' + ' '.join(map(str, sched))]
    return 'thpool %d %d %d %d' % (lazy, det, mx, wall), lines

def exhaustive_pool(maxlen):
    """every schedule prefix of length maxlen over the thread ids of a 1 submitter x 1 worker x 2 tasks pool, then a drain; all flavours"""
    for lazy, det, wall in itertools.product((0, 1), (0, 1), (0, 1)):
        nth = (0 if lazy else 1) + 1 + 1 + (1 if lazy else 0)
        for pre in itertools.product(range(nth), repeat=maxlen):
            sched = list(pre) + list(range(nth)) * 30
            yield 'thpool %d %d 1 %d' % (lazy, det, wall), ['sub 1 2', 'sched ' + ' '.join(map(str, sched))]

class C06(Check):
    pid = 'C06'; props_file = 'Props_C06'
    driver = 'drv_thpool'; driver_srcs = TH_SRCS
    driver_flags = ('-DLIBMODULE_LOG_CTX=THPOOL', WRAPS); driver_libs = ('-lpthread',)
    model = 'thpool'
    trusted = ['Coq 8.16.1 kernel (coqc, vm_compute; no native_compute)', 'axioms: none',
               'extraction: ExtrOcamlBasic only; hand-written OCaml glue extract/glue.ml + main_thpool.ml',
               'harness/drv_thpool.c: deterministic scheduler (link-time wraps of the pthread mutex/cond/create/join calls of thpool.c; the pool mutex and condition are virtualised), tools/*.py, gcc, ASan/UBSan']
    assumptions = ['the model (coq/Thpool.v) corresponds to thpool.c only as far as the schedules of this check exercise it',
                   'interleavings are explored at the granularity of pthread operations: accesses outside the lock (shutdown / init_state in the entry asserts, the atomic running counter) and weak-memory effects are below the model',
                   'm_thpool_free happens after every submitter call returned (documented precondition); m_thpool_length / m_thpool_clear are not modelled']
    rule = ('corpus + random schedules (thread choices incl. spurious wake-ups, long single-thread runs, round-robin drains) over pools of every '
            'flavour (eager/lazy, joinable/detached, 1..3 threads, wait-all or not) with 1..3 submitters and 0..3 tasks each + every schedule '
            'prefix of length L over a 1x1x2 pool (quick L=5, thorough L=8); non-trivial = distinct case in which a task ran')
    def removable(self, line): return False
    def cases(self, tier, seed, ctx):
        n = 800 if tier == 'quick' else 20000; L = 5 if tier == 'quick' else 8
        res = []
        for i in range(n):
            h, lines = gen_pool_case(case_rng(seed, self.pid, i)); res.append(('g%d' % i, h, lines))
        for j, (h, lines) in enumerate(exhaustive_pool(L)): res.append(('e%d' % j, h, lines))
        ctx.setdefault('cov_extra', {})['exhaustive_prefix_length'] = L
        return res
    def shrink(self, case, ctx, kind, sig=None):
        """shorten the schedule while the verdict stays"""
        cid, header, ops = case
        sched = [l for l in ops if l.startswith('sched ')][0].split()[1:]
        rest = [l for l in ops if not l.startswith('sched ')]
        n = 2; rounds = 0
        while len(sched) >= 2 and rounds < 30:
            rounds += 1; chunk = max(1, len(sched) // n)
            cands = [sched[:i] + sched[i + chunk:] for i in range(0, len(sched), chunk)]
            cases = [('s%d' % j, header, rest + ['sched ' + ' '.join(c)]) for j, c in enumerate(cands)]
            c, m = self.run_both(cases, ctx, 'shrink')
            hit = None
            for j, cand in enumerate(cands):
                if self.judge(cases[j], c.get('s%d' % j), m.get('s%d' % j))[0] == kind: hit = cand; break
            if hit is not None: sched = hit; n = max(n - 1, 2)
            else:
                if chunk == 1: break
                n = min(len(sched), n * 2)
        return (cid, header, rest + ['sched ' + ' '.join(sched)])
    def project(self, header, lines):
        # the execution log and the final summary are what the property speaks about; the per-step codes are model detail
        return [l for l in lines if not l.startswith('codes')]
    def monitors(self, case, ctr):
        res = []
        cid, header, ops = case
        wall = header.split()[4] == '1'
        tasks = [int(x) for l in ops if l.startswith('sub') for x in l.split()[1:]]
        ran = [l for l in ctr if l.startswith('ran')]
        summ = [l for l in ctr if l.startswith('threads')]
        if ran:
            ks = [int(x.split(':')[0]) for x in ran[0].split()[1:]]
            if len(ks) != len(set(ks)): res.append(('a task ran twice: %s' % ks, None))
            if any(k not in tasks for k in ks): res.append(('a task ran that was never submitted (wrong argument): %s' % ks, None))
            if summ:
                t = summ[0].split(); unfinished, freed = int(t[3]), int(t[5])
                if freed and unfinished == 0 and wall and sorted(ks) != sorted(tasks):
                    res.append(('free(wait_all) returned but tasks %s never ran' % sorted(set(tasks) - set(ks)), None))
                sched = [l for l in ops if l.startswith('sched ')][0].split()[1:]
                nth = int(t[1])
                tail = sched[-6 * nth:] if len(sched) >= 6 * nth else []
                if unfinished and tail and all(str(i) in tail for i in range(nth)) and len(sched) >= 30 * nth:
                    res.append(('threads still blocked after %d round-robin rounds: deadlock' % (len(sched) // nth), 'thpool-maybe-not-drained'))
        return [r for r in res if r[1] is None]
    def nontrivial(self, case, ctr):
        return ctr is not None and any(l.startswith('ran ') and len(l.split()) > 1 for l in ctr)

REGISTRY = {c.pid: c() for c in (C06,)}
